package rt

import (
	"bufio"
	"context"
	"encoding/json"
	"net/http"
	"os"
	"sync"
	"time"

	goahttp "goa.design/goa/v3/http"
)

// Schedule replay (C20): K scenarios run in K goroutines against the one mounted server; each blocks at
// the gates the harness controls without touching generated code - the decoder factory ("decode"), the
// stub service method ("invoke"), the authorization callbacks ("auth") and the encoder factory ("encode").
// A schedule is the order in which processes PASS their gates: the controller waits until process p sits at
// gate g, releases it and moves on without waiting, so the released segments of different processes run
// truly in parallel (no happens-before edge is added between them, which keeps the race detector honest).
type (
	Schedule struct {
		ID    string     `json:"id"`
		Procs []string   `json:"procs"` // scenario ids, one per process
		Order [][]any    `json:"order"` // [process index (1-based), gate name]
		// Serial: a gate is passed only while every other process waits at a gate or has finished (serial.go)
		Serial bool `json:"serial,omitempty"`
	}
	procSched struct {
		arrive  chan string
		release chan struct{}
		free    chan struct{} // closed: gates no longer block
	}
)

func gate(ctx context.Context, name string) {
	st := stateOf(ctx)
	if st == nil || st.sched == nil {
		return
	}
	select {
	case <-st.sched.free:
		return
	default:
	}
	select {
	case st.sched.arrive <- name:
	case <-st.sched.free:
		return
	}
	select {
	case <-st.sched.release:
	case <-st.sched.free:
	}
}

// gatedDec / gatedEnc are the factories handed to the generated server: same library functions, plus a gate.
func gatedDec(r *http.Request) goahttp.Decoder {
	gate(r.Context(), "decode")
	return goahttp.RequestDecoder(r)
}

func gatedEnc(ctx context.Context, w http.ResponseWriter) goahttp.Encoder {
	gate(ctx, "encode")
	return goahttp.ResponseEncoder(ctx, w)
}

func (rt *Runtime) runSchedule(s *Schedule, byID map[string]*Scenario) map[string]any {
	if s.Serial {
		return rt.runScheduleSerial(s, byID)
	}
	k := len(s.Procs)
	ps := make([]*procSched, k)
	done := make([]chan struct{}, k)
	results := make([]map[string]any, k)
	var wg sync.WaitGroup
	for i := range ps {
		ps[i] = &procSched{arrive: make(chan string), release: make(chan struct{}), free: make(chan struct{})}
		done[i] = make(chan struct{})
		scn, ok := byID[s.Procs[i]]
		if !ok {
			Fatal("schedule %s: unknown scenario %q", s.ID, s.Procs[i])
		}
		wg.Add(1)
		go func(i int, scn *Scenario) {
			defer wg.Done()
			defer close(done[i])
			results[i] = rt.runOneSched(scn, ps[i])
		}(i, scn)
	}
	mismatch := []string{}
	for _, step := range s.Order {
		p := int(step[0].(float64)) - 1
		want := step[1].(string)
		select {
		case got := <-ps[p].arrive:
			if got != want {
				mismatch = append(mismatch, s.Procs[p]+": at "+got+" instead of "+want)
			}
			ps[p].release <- struct{}{}
		case <-done[p]:
			// an observation, not a timeout: the exchange is over and the gate was never passed
			mismatch = append(mismatch, s.Procs[p]+": finished instead of reaching "+want)
		case <-time.After(gateWait):
			mismatch = append(mismatch, s.Procs[p]+": never reached "+want)
		}
	}
	for _, p := range ps {
		close(p.free)
	}
	wg.Wait()
	return map[string]any{"schedule": s.ID, "procs": results, "mismatch": mismatch}
}

func readSchedules(path string) []*Schedule {
	fh, err := os.Open(path)
	if err != nil {
		Fatal("%v", err)
	}
	defer fh.Close()
	var out []*Schedule
	sc := bufio.NewScanner(fh)
	sc.Buffer(make([]byte, 1<<20), 1<<26)
	for sc.Scan() {
		if len(sc.Bytes()) == 0 {
			continue
		}
		var s Schedule
		if err := json.Unmarshal(sc.Bytes(), &s); err != nil {
			Fatal("bad schedule: %v", err)
		}
		out = append(out, &s)
	}
	return out
}
