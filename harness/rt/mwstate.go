package rt

// ADD-ONLY extension for C20 (shared-state middlewares): `-mwstate` mounts, in front of every generated handler,
// the runtime middlewares that keep state between requests, in their stateful configurations:
//
//	RequestID (trusting X-Request-Id, limit 24) -> Trace (adaptive sampler, a maximum rate no test reaches,
//	sample size 2) -> probe "outer" -> Trace (adaptive sampler, 1 request/s, sample size 1: every request adjusts
//	the rate) -> Trace (fixed 50%) -> Debug (one shared writer) -> Log (one shared logger, ResponseCapture) ->
//	probe "inner" -> generated handler
//
// The probes record the identifiers the request context carries at that point; the shared writer and logger file
// what they receive under the request it is tagged with.  Nothing of this changes the exchange itself.

import (
	"flag"
	"fmt"
	"net/http"
	"strings"
	"sync"

	goahttp "goa.design/goa/v3/http"
	httpm "goa.design/goa/v3/http/middleware"
	"goa.design/goa/v3/middleware"
)

var mwState = flag.Bool("mwstate", false, "mount the shared-state middlewares (request id, trace with adaptive and fixed samplers, debug, log) in front of the handlers")

// unreachableRate is a maximum sampling rate (requests per second) no run reaches: everything is sampled.
const unreachableRate = 1_000_000_000_000

// byRid finds the in-flight request a record tagged with a request id belongs to.  A request id two in-flight
// requests share (the same scenario run twice with the same inbound X-Request-Id) files under either of them:
// they are the same request.
var byRid sync.Map // request id -> *scnState

type mwSink struct{}

// Write receives one Debug record.
func (mwSink) Write(b []byte) (int, error) {
	rec := string(b)
	id, mixed := "", false
	var reqBody, respBody []string
	url, status, resp := "", "", false
	for _, line := range strings.Split(rec, "\n") {
		i, j := strings.Index(line, "["), strings.Index(line, "] ")
		if i < 0 || j < i || i > 2 {
			continue
		}
		tag, rest := line[i+1:j], line[j+2:]
		if id == "" {
			id = tag
		} else if tag != id {
			mixed = true
		}
		switch {
		case i == 2 && line[0] == '>':
			if url == "" {
				url = rest
			}
		case i == 2 && line[0] == '<':
			if !resp {
				status = rest
			}
			resp = true
		case resp:
			respBody = append(respBody, rest)
		default:
			reqBody = append(reqBody, rest)
		}
	}
	if st, ok := byRid.Load(id); ok {
		st.(*scnState).add(Event{"ev": "mw_debug", "rid": id, "mixed": mixed, "request": url, "status": status,
			"reqBody": strings.Join(reqBody, "\n"), "respBody": strings.Join(respBody, "\n")})
	}
	return len(b), nil
}

// Log receives one entry of the Log middleware.
func (mwSink) Log(keyvals ...any) error {
	e := Event{"ev": "mw_log"}
	for i := 0; i+1 < len(keyvals); i += 2 {
		e[fmt.Sprint(keyvals[i])] = fmt.Sprint(keyvals[i+1])
	}
	delete(e, "time")
	if st, ok := byRid.Load(e["id"]); ok {
		st.(*scnState).add(e)
	}
	return nil
}

func mwProbe(at string) func(http.Handler) http.Handler {
	return func(next http.Handler) http.Handler {
		return http.HandlerFunc(func(w http.ResponseWriter, r *http.Request) {
			ctx := r.Context()
			str := func(k any) string {
				s, _ := ctx.Value(k).(string)
				return s
			}
			st := stateOf(ctx)
			rid := str(middleware.RequestIDKey)
			if st != nil {
				if at == "outer" {
					byRid.Store(rid, st)
					defer byRid.CompareAndDelete(rid, st)
				}
				st.add(Event{"ev": "mw_state", "at": at, "rid": rid, "trace": str(middleware.TraceIDKey), "span": str(middleware.TraceSpanIDKey),
					"parent": str(middleware.TraceParentSpanIDKey)})
			}
			next.ServeHTTP(w, r)
		})
	}
}

// mountStateful is called by mount() before the services are mounted.
func mountStateful(rm goahttp.ResolverMuxer) {
	if !*mwState {
		return
	}
	rm.Use(httpm.RequestID(httpm.UseXRequestIDHeaderOption(true), httpm.XRequestHeaderLimitOption(24)))
	rm.Use(httpm.Trace(httpm.MaxSamplingRate(unreachableRate), httpm.SampleSize(2)))
	rm.Use(mwProbe("outer"))
	rm.Use(httpm.Trace(httpm.MaxSamplingRate(1), httpm.SampleSize(1)))
	rm.Use(httpm.Trace(httpm.SamplingPercent(50)))
	rm.Use(httpm.Debug(rm, mwSink{}))
	rm.Use(httpm.Log(mwSink{}))
	rm.Use(mwProbe("inner"))
}
