package rt

import (
	"bytes"
	"encoding/json"
	"strconv"
)

// Tamper describes what a peer that is NOT goa-generated code does to a message on the wire: members of JSON
// objects that are removed from the request body after the generated client wrote it (Req), or from the response
// body after the generated server wrote it (Resp).  Each entry is a path of object keys / array indices whose last
// element is the member to delete.  (Used for "the required inner attribute is missing": no generated encoder can
// write such a message, any other peer can.)
type Tamper struct {
	Req  [][]string `json:"req,omitempty"`
	Resp [][]string `json:"resp,omitempty"`
}

// dropMembers removes the members named by paths from the JSON document body. A body that is not JSON, or a path
// that does not exist, is machinery trouble: the scenario was built for a message that was not produced.
func dropMembers(id, what string, body []byte, paths [][]string) []byte {
	var doc any
	dec := json.NewDecoder(bytes.NewReader(body))
	dec.UseNumber()
	if err := dec.Decode(&doc); err != nil {
		Fatal("scenario %s: cannot tamper with the %s body (not JSON: %v): %q", id, what, err, string(body))
	}
	for _, p := range paths {
		if len(p) == 0 {
			Fatal("scenario %s: empty tamper path", id)
		}
		cur := doc
		for _, k := range p[:len(p)-1] {
			switch x := cur.(type) {
			case map[string]any:
				cur = x[k]
			case []any:
				i, err := strconv.Atoi(k)
				if err != nil || i < 0 || i >= len(x) {
					Fatal("scenario %s: tamper path %v: no index %q in the %s body %q", id, p, k, what, string(body))
				}
				cur = x[i]
			default:
				Fatal("scenario %s: tamper path %v does not exist in the %s body %q", id, p, what, string(body))
			}
		}
		m, ok := cur.(map[string]any)
		if !ok {
			Fatal("scenario %s: tamper path %v does not lead to an object in the %s body %q", id, p, what, string(body))
		}
		if _, ok := m[p[len(p)-1]]; !ok {
			Fatal("scenario %s: tamper path %v: member not present in the %s body %q", id, p, what, string(body))
		}
		delete(m, p[len(p)-1])
	}
	var out bytes.Buffer
	enc := json.NewEncoder(&out)
	enc.SetEscapeHTML(false)
	if err := enc.Encode(doc); err != nil {
		Fatal("scenario %s: cannot re-encode the tampered %s body: %v", id, what, err)
	}
	return out.Bytes()
}
