package rt

// ADD-ONLY extension for C20 (codec concurrency): the serial replay mode of a schedule, the "echo" outcome of
// the stub and raw request bodies that are not text.

import (
	"encoding/base64"
	"reflect"
	"sync"
	"time"
)

// gateWait is how long the controller waits for a process to reach a gate (or to finish) before it gives the
// schedule up.  A process that does not show up is reported as "stuck" (machinery trouble, not a verdict).
const gateWait = 20 * time.Second

// echoOutcome is the outcome kind "echo": the service method returns the payload it was handed - the very
// value, no copy, as user code does that stores or forwards its payload - when payload and result have the same
// Go type (Payload(Bytes)/Result(Bytes), the same user type on both sides, ...).
func echoOutcome(payload any, resType reflect.Type) (any, bool) {
	if payload == nil || resType == nil || reflect.TypeOf(payload) != resType {
		return nil, false
	}
	return payload, true
}

// rawBody is the body of a raw request: BodyB64 (bytes that are not valid UTF-8: gob) wins over Body.
func rawBody(r *RawRequest) string {
	if r.BodyB64 != "" {
		b, err := base64.StdEncoding.DecodeString(r.BodyB64)
		if err != nil {
			Fatal("bad bodyB64: %v", err)
		}
		return string(b)
	}
	return r.Body
}

// runScheduleSerial replays a schedule whose grain is the whole region: a gate is passed only when every other
// process sits at a gate or has finished, and the controller waits for the released process to reach its next
// gate (or to finish) before it looks at the next step.  "Hold request A after its decode region, run request
// B from start to finish, let A continue" is such a schedule.  Exactly one request goroutine runs at any time,
// so what one region leaves in state shared between requests is what the next region of any process finds.
func (rt *Runtime) runScheduleSerial(s *Schedule, byID map[string]*Scenario) map[string]any {
	k := len(s.Procs)
	ps := make([]*procSched, k)
	done := make([]chan struct{}, k)
	results := make([]map[string]any, k)
	var wg sync.WaitGroup
	for i := range ps {
		ps[i] = &procSched{arrive: make(chan string), release: make(chan struct{}), free: make(chan struct{})}
		done[i] = make(chan struct{})
		scn, ok := byID[s.Procs[i]]
		if !ok {
			Fatal("schedule %s: unknown scenario %q", s.ID, s.Procs[i])
		}
		wg.Add(1)
		go func(i int, scn *Scenario) {
			defer wg.Done()
			defer close(done[i])
			results[i] = rt.runOneSched(scn, ps[i])
		}(i, scn)
	}
	mismatch, stuck := []string{}, []string{}
	pending := make([]string, k) // the gate a process waits at ("" while it runs or once it has finished)
	finished := make([]bool, k)
	settle := func(i int) {
		if pending[i] != "" || finished[i] {
			return
		}
		select {
		case g := <-ps[i].arrive:
			pending[i] = g
		case <-done[i]:
			finished[i] = true
		case <-time.After(gateWait):
			stuck = append(stuck, s.Procs[i]+": neither at a gate nor finished")
			finished[i] = true
		}
	}
	for i := range ps {
		settle(i)
	}
	for _, step := range s.Order {
		if len(stuck) > 0 {
			break
		}
		p := int(step[0].(float64)) - 1
		want := step[1].(string)
		if finished[p] {
			mismatch = append(mismatch, s.Procs[p]+": finished instead of reaching "+want)
			continue
		}
		if pending[p] != want {
			mismatch = append(mismatch, s.Procs[p]+": at "+pending[p]+" instead of "+want)
		}
		pending[p] = ""
		select {
		case ps[p].release <- struct{}{}:
		case <-time.After(gateWait):
			stuck = append(stuck, s.Procs[p]+": does not take its release")
		}
		settle(p)
	}
	for _, p := range ps {
		close(p.free)
	}
	wg.Wait()
	return map[string]any{"schedule": s.ID, "procs": results, "mismatch": mismatch, "stuck": stuck, "serial": true}
}
