package rt

import (
	"bufio"
	"bytes"
	"context"
	"encoding/json"
	"errors"
	"flag"
	"fmt"
	"io"
	"net/http"
	"net/http/httptest"
	"os"
	"reflect"
	"sort"
	"strings"
	"sync"
	"time"

	goahttp "goa.design/goa/v3/http"
	goa "goa.design/goa/v3/pkg"
	"goa.design/goa/v3/security"
)

type (
	// Service is what the generated glue registers for one goa service.
	Service struct {
		Name         string
		Stub         any                                            // implements <svc>.Service (and Auther)
		NewEndpoints func(stub any) any                             // <svc>.NewEndpoints
		Mount        func(eps any, mux goahttp.Muxer, o *MountOpts) // <svc>server.New + Mount
		NewClient    func(scheme, host string, doer goahttp.Doer) any
		MakeErr      map[string]func(error) *goa.ServiceError // <svc>.Make<Name>
		Types        map[string]reflect.Type                  // exported named struct types of the service package
		Methods      []string                                 // Go method names of the Service interface
	}
	MountOpts struct {
		Dec func(*http.Request) goahttp.Decoder
		Enc func(context.Context, http.ResponseWriter) goahttp.Encoder
		EH  func(context.Context, http.ResponseWriter, error)
		Fmt func(ctx context.Context, err error) goahttp.Statuser
	}

	// Scenario is one exchange to run.
	Scenario struct {
		ID      string          `json:"id"`
		Service string          `json:"service"`
		Method  string          `json:"method"` // Go method name
		Payload json.RawMessage `json:"payload,omitempty"`
		// what the stub service does when invoked
		Outcome *Outcome `json:"outcome,omitempty"`
		// verdict of the authorization callbacks, by scheme name (default: accept)
		Auth map[string]bool `json:"auth,omitempty"`
		// raw request sent instead of calling the generated client
		Raw *RawRequest `json:"raw,omitempty"`
		// raw response handed to the generated client instead of calling the server
		RawResp *RawResponse `json:"rawResp,omitempty"`
		Accept  string       `json:"accept,omitempty"`
		// members removed from the request / response body on the wire (tamper.go)
		Tamper *Tamper `json:"tamper,omitempty"`
	}
	Outcome struct {
		Kind    string          `json:"kind"` // result | error
		Value   json.RawMessage `json:"value,omitempty"`
		View    string          `json:"view,omitempty"`
		ErrKind string          `json:"errKind,omitempty"` // make | type | service | plain | wrapped
		ErrName string          `json:"errName,omitempty"`
		ErrType string          `json:"errType,omitempty"` // Go type name for custom error types
		Flags   [3]bool         `json:"flags,omitempty"`   // timeout, temporary, fault (for errKind service)
		Msg     string          `json:"msg,omitempty"`
	}
	RawRequest struct {
		Method  string              `json:"method"`
		URI     string              `json:"uri"`
		Headers map[string][]string `json:"headers,omitempty"`
		Body    string              `json:"body,omitempty"`
		BodyB64 string              `json:"bodyB64,omitempty"` // body bytes that are not text (gob); wins over Body (serial.go)
	}
	RawResponse struct {
		Status  int                 `json:"status"`
		Headers map[string][]string `json:"headers,omitempty"`
		Body    string              `json:"body,omitempty"`
	}

	// Event is one recorded step.
	Event map[string]any

	scnState struct {
		scn    *Scenario
		mu     sync.Mutex
		events []Event
		sched  *procSched // non-nil while a schedule is being replayed (sched.go)
	}
	ctxKey int
)

const scnKey ctxKey = 1

func (s *scnState) add(e Event) {
	s.mu.Lock()
	s.events = append(s.events, e)
	s.mu.Unlock()
}

// Runtime holds the registered services and the mounted server.
type Runtime struct {
	services map[string]*Service
	mux      goahttp.Muxer
	clients  map[string]any
	current  sync.Map // goroutine-less correlation: scenario id -> *scnState
}

// mwLookup (-mwlookup): mount a middleware that looks the request up before routing (C20)
var mwLookup bool

var theRT = &Runtime{services: map[string]*Service{}, clients: map[string]any{}}

// stateOf finds the scenario a server-side call belongs to (carried in the request context by the tap).
func stateOf(ctx context.Context) *scnState {
	if s, ok := ctx.Value(scnKey).(*scnState); ok {
		return s
	}
	return nil
}

// ---- stub side ---------------------------------------------------------------------------------

// Invoked is called by generated stub methods. It records the delivered payload and returns the
// scripted outcome.
func Invoked(ctx context.Context, svc, method string, payload any, resType reflect.Type) (res any, view string, err error) {
	st := stateOf(ctx)
	if st == nil {
		return nil, "", errors.New("verif: no scenario in context")
	}
	gate(ctx, "invoke")
	ev := Event{"ev": "invoke", "service": svc, "method": method}
	if payload != nil {
		ev["payload"] = Dump(payload)
		ev["hasPayload"] = true
	}
	st.add(ev)
	s := theRT.services[svc]
	o := st.scn.Outcome
	if o == nil {
		o = &Outcome{Kind: "result"}
	}
	switch o.Kind {
	case "result":
		if resType != nil && len(o.Value) > 0 {
			v := reflect.New(resType).Elem()
			var data any
			dec := json.NewDecoder(bytes.NewReader(o.Value))
			dec.UseNumber()
			if e := dec.Decode(&data); e != nil {
				Fatal("bad outcome value: %v", e)
			}
			if e := Fill(v, data); e != nil {
				Fatal("scenario %s: cannot build result %s: %v", st.scn.ID, resType, e)
			}
			res = v.Interface()
		}
		st.add(Event{"ev": "service_return", "kind": "result", "view": o.View, "value": Dump(res)})
		return res, o.View, nil
	case "error":
		err = buildError(s, o)
		st.add(Event{"ev": "service_return", "kind": "error", "errKind": o.ErrKind, "errName": o.ErrName})
		return nil, "", err
	case "echo": // the payload itself is the result (serial.go)
		r, ok := echoOutcome(payload, resType)
		if !ok {
			Fatal("scenario %s: method %s cannot echo %T as %v", st.scn.ID, method, payload, resType)
		}
		st.add(Event{"ev": "service_return", "kind": "echo"})
		return r, o.View, nil
	}
	Fatal("unknown outcome kind %q", o.Kind)
	return nil, "", nil
}

func buildError(s *Service, o *Outcome) error {
	msg := o.Msg
	if msg == "" {
		msg = "boom"
	}
	switch o.ErrKind {
	case "make": // declared error of type ErrorResult
		mk, ok := s.MakeErr[norm(o.ErrName)]
		if !ok {
			// goa generates no Make<Name> function for errors declared at the API level: build the
			// service error the way user code has to, with the flags the design declares
			return goa.NewServiceError(errors.New(msg), o.ErrName, o.Flags[0], o.Flags[1], o.Flags[2])
		}
		return mk(errors.New(msg))
	case "wrapmake":
		mk, ok := s.MakeErr[norm(o.ErrName)]
		if !ok {
			return fmt.Errorf("wrapped: %w", goa.NewServiceError(errors.New(msg), o.ErrName, o.Flags[0], o.Flags[1], o.Flags[2]))
		}
		return fmt.Errorf("wrapped: %w", mk(errors.New(msg)))
	case "type": // declared error with a custom type
		t, ok := s.Types[o.ErrType]
		if !ok {
			Fatal("no type %q in service %s", o.ErrType, s.Name)
		}
		v := reflect.New(t)
		if len(o.Value) > 0 {
			var data any
			dec := json.NewDecoder(bytes.NewReader(o.Value))
			dec.UseNumber()
			if e := dec.Decode(&data); e != nil {
				Fatal("bad error value: %v", e)
			}
			if e := Fill(v.Elem(), data); e != nil {
				Fatal("cannot build error %s: %v", t, e)
			}
		}
		e, ok := v.Interface().(error)
		if !ok {
			Fatal("type %s is not an error", t)
		}
		return e
	case "service": // undeclared goa service error
		return &goa.ServiceError{Name: o.ErrName, ID: "id1", Message: msg, Timeout: o.Flags[0], Temporary: o.Flags[1], Fault: o.Flags[2]}
	case "joinservice": // undeclared goa service error only reachable through a multi-error wrapper
		return errors.Join(errors.New("cleanup failed"), &goa.ServiceError{Name: o.ErrName, ID: "id1", Message: msg, Timeout: o.Flags[0], Temporary: o.Flags[1], Fault: o.Flags[2]})
	case "plain":
		return errors.New(msg)
	}
	Fatal("unknown errKind %q", o.ErrKind)
	return nil
}

// Auth is called by the generated stub's authorization callbacks.
func Auth(ctx context.Context, kind string, cred map[string]string, scheme any) (context.Context, error) {
	st := stateOf(ctx)
	if st == nil {
		return ctx, errors.New("verif: no scenario in context")
	}
	gate(ctx, "auth")
	name, scopes, required := "", []string{}, []string{}
	switch s := scheme.(type) {
	case *security.BasicScheme:
		name = s.Name
	case *security.APIKeyScheme:
		name = s.Name
	case *security.JWTScheme:
		name, scopes, required = s.Name, append(scopes, s.Scopes...), append(required, s.RequiredScopes...)
	case *security.OAuth2Scheme:
		name, scopes, required = s.Name, append(scopes, s.Scopes...), append(required, s.RequiredScopes...)
	}
	verdict := true
	if v, ok := st.scn.Auth[name]; ok {
		verdict = v
	}
	st.add(Event{"ev": "auth", "kind": kind, "scheme": name, "cred": cred, "scopes": scopes, "required": required, "verdict": verdict})
	if !verdict {
		return ctx, &goa.ServiceError{Name: "unauthorized_" + name, ID: "ida", Message: "denied by " + name}
	}
	return ctx, nil
}

// ---- tap ---------------------------------------------------------------------------------------

type countingWriter struct {
	http.ResponseWriter
	n int
}

func (c *countingWriter) WriteHeader(code int) { c.n++; c.ResponseWriter.WriteHeader(code) }

// tap is the Doer handed to the generated client: it serialises the outgoing request exactly as it
// would go on a socket, re-parses it with net/http, serves it on the mounted muxer and records both
// directions.
type tap struct {
	rt *Runtime
	st *scnState
}

func (t *tap) Do(req *http.Request) (*http.Response, error) {
	if a := t.st.scn.Accept; a != "" {
		req.Header.Set("Accept", a) // the caller's content negotiation preference
	}
	var buf bytes.Buffer
	if err := req.Write(&buf); err != nil {
		t.st.add(Event{"ev": "wire_req_error", "error": err.Error()})
		return nil, err
	}
	return t.serveWire(buf.Bytes(), req)
}

func (t *tap) serveWire(wire []byte, orig *http.Request) (*http.Response, error) {
	req2, err := http.ReadRequest(bufio.NewReader(bytes.NewReader(wire)))
	if err != nil {
		t.st.add(Event{"ev": "wire_req_error", "error": "unparseable request: " + err.Error(), "wire": string(wire)})
		return nil, err
	}
	body, _ := io.ReadAll(req2.Body)
	if tm := t.st.scn.Tamper; tm != nil && len(tm.Req) > 0 { // a peer that leaves members out (tamper.go)
		body = dropMembers(t.st.scn.ID, "request", body, tm.Req)
		req2.ContentLength = int64(len(body))
		req2.Header.Set("Content-Length", fmt.Sprint(len(body)))
	}
	req2.Body = io.NopCloser(bytes.NewReader(body))
	cookies := map[string][]string{}
	for _, c := range req2.Cookies() {
		cookies[c.Name] = append(cookies[c.Name], c.Value)
	}
	t.st.add(Event{"ev": "wire_req", "method": req2.Method, "uri": req2.RequestURI, "path": req2.URL.Path,
		"rawpath": req2.URL.RawPath, "escpath": req2.URL.EscapedPath(), "query": map[string][]string(req2.URL.Query()), "rawquery": req2.URL.RawQuery,
		"headers": map[string][]string(req2.Header), "cookies": cookies, "body": string(body)})
	if rr := t.st.scn.RawResp; rr != nil {
		resp := &http.Response{StatusCode: rr.Status, Status: http.StatusText(rr.Status), Header: http.Header{}, Proto: "HTTP/1.1", ProtoMajor: 1, ProtoMinor: 1,
			Body: io.NopCloser(strings.NewReader(rr.Body)), Request: orig, ContentLength: int64(len(rr.Body))}
		for k, vs := range rr.Headers {
			for _, v := range vs {
				resp.Header.Add(k, v)
			}
		}
		t.st.add(Event{"ev": "wire_resp", "status": rr.Status, "headers": rr.Headers, "body": rr.Body, "raw": true})
		return resp, nil
	}
	req2 = req2.WithContext(context.WithValue(context.Background(), scnKey, t.st))
	rec := httptest.NewRecorder()
	cw := &countingWriter{ResponseWriter: rec}
	func() {
		defer func() {
			if r := recover(); r != nil {
				t.st.add(Event{"ev": "server_panic", "detail": fmt.Sprint(r)})
				if cw.n == 0 {
					rec.WriteHeader(500)
				}
			}
		}()
		t.rt.mux.ServeHTTP(cw, req2)
	}()
	res := rec.Result()
	rbody, _ := io.ReadAll(res.Body)
	if tm := t.st.scn.Tamper; tm != nil && len(tm.Resp) > 0 && res.StatusCode < 300 { // (tamper.go)
		rbody = dropMembers(t.st.scn.ID, "response", rbody, tm.Resp)
		res.ContentLength = int64(len(rbody))
	}
	res.Body = io.NopCloser(bytes.NewReader(rbody))
	rcookies := map[string][]string{}
	for _, c := range res.Cookies() {
		rcookies[c.Name] = append(rcookies[c.Name], c.Value)
	}
	t.st.add(Event{"ev": "wire_resp", "status": res.StatusCode, "headers": map[string][]string(res.Header), "cookies": rcookies,
		"body": string(rbody), "writeHeaderCalls": cw.n})
	res.Request = orig
	return res, nil
}

// ---- running -----------------------------------------------------------------------------------

func Fatal(format string, a ...any) {
	fmt.Fprintf(os.Stderr, "runner: "+format+"\n", a...)
	os.Exit(3)
}

func Register(s *Service) { theRT.services[s.Name] = s }

func (rt *Runtime) mount() {
	rt.mux = goahttp.NewMuxer()
	// a middleware that looks the request up before it is routed, as goa's debug and log middlewares do
	rm := rt.mux.(goahttp.ResolverMuxer)
	if mwLookup {
		rm.Use(func(next http.Handler) http.Handler {
			return http.HandlerFunc(func(w http.ResponseWriter, r *http.Request) {
				if st := stateOf(r.Context()); st != nil {
					st.add(Event{"ev": "mw_lookup", "vars": rm.Vars(r), "pattern": rm.ResolvePattern(r)})
				}
				next.ServeHTTP(w, r)
			})
		})
	}
	mountStateful(rm) // -mwstate: the shared-state middlewares (mwstate.go)
	names := make([]string, 0, len(rt.services))
	for n := range rt.services {
		names = append(names, n)
	}
	sort.Strings(names)
	for _, n := range names {
		s := rt.services[n]
		eps := s.NewEndpoints(s.Stub)
		eh := func(ctx context.Context, w http.ResponseWriter, err error) {
			if st := stateOf(ctx); st != nil {
				st.add(Event{"ev": "errhandler", "error": err.Error()})
			}
		}
		s.Mount(eps, mountTarget(rt.mux, n), &MountOpts{Dec: gatedDec, Enc: gatedEnc, EH: eh, Fmt: nil})
	}
}

func errInfo(err error) any {
	if err == nil {
		return nil
	}
	info := map[string]any{"type": fmt.Sprintf("%T", err), "message": err.Error()}
	var namer goa.GoaErrorNamer
	if errors.As(err, &namer) {
		info["name"] = namer.GoaErrorName()
	}
	var se *goa.ServiceError
	if errors.As(err, &se) {
		info["service"] = map[string]any{"name": se.Name, "id": se.ID, "message": se.Message, "timeout": se.Timeout, "temporary": se.Temporary, "fault": se.Fault, "field": Dump(se.Field)}
	} else {
		info["fields"] = Dump(err)
	}
	var ce *goahttp.ClientError
	if errors.As(err, &ce) {
		info["client"] = map[string]any{"name": ce.Name, "message": ce.Message, "temporary": ce.Temporary, "timeout": ce.Timeout, "fault": ce.Fault}
	}
	return info
}

func (rt *Runtime) runOne(scn *Scenario) map[string]any { return rt.runOneSched(scn, nil) }

func (rt *Runtime) runOneSched(scn *Scenario, ps *procSched) map[string]any {
	st := &scnState{scn: scn, sched: ps}
	t := &tap{rt: rt, st: st}
	func() {
		defer func() {
			if r := recover(); r != nil {
				st.add(Event{"ev": "client_panic", "detail": fmt.Sprint(r)})
			}
		}()
		if scn.Raw != nil {
			var buf bytes.Buffer
			fmt.Fprintf(&buf, "%s %s HTTP/1.1\r\nHost: verif.test\r\n", scn.Raw.Method, scn.Raw.URI)
			hk := make([]string, 0, len(scn.Raw.Headers))
			for k := range scn.Raw.Headers {
				hk = append(hk, k)
			}
			sort.Strings(hk)
			for _, k := range hk {
				for _, v := range scn.Raw.Headers[k] {
					fmt.Fprintf(&buf, "%s: %s\r\n", k, v)
				}
			}
			rb := rawBody(scn.Raw)
			fmt.Fprintf(&buf, "Content-Length: %d\r\n\r\n%s", len(rb), rb)
			t.serveWire(buf.Bytes(), nil) // nolint: errcheck
			return
		}
		s, ok := rt.services[scn.Service]
		if !ok {
			Fatal("scenario %s: unknown service %q", scn.ID, scn.Service)
		}
		cl := s.NewClient("http", "verif.test", t)
		m := reflect.ValueOf(cl).MethodByName(scn.Method)
		if !m.IsValid() {
			Fatal("scenario %s: client has no endpoint method %q", scn.ID, scn.Method)
		}
		ep := m.Call(nil)[0].Interface().(goa.Endpoint)
		var payload any
		if len(scn.Payload) > 0 && string(scn.Payload) != "null" {
			pt := payloadType(s, scn.Method)
			if pt == nil {
				Fatal("scenario %s: method %s takes no payload", scn.ID, scn.Method)
			}
			v := reflect.New(pt).Elem()
			var data any
			dec := json.NewDecoder(bytes.NewReader(scn.Payload))
			dec.UseNumber()
			if err := dec.Decode(&data); err != nil {
				Fatal("scenario %s: bad payload JSON: %v", scn.ID, err)
			}
			if err := Fill(v, data); err != nil {
				Fatal("scenario %s: cannot build payload %s: %v", scn.ID, pt, err)
			}
			payload = v.Interface()
		}
		st.add(Event{"ev": "client_call", "method": scn.Method, "payload": Dump(payload)})
		ctx := context.Background()
		res, err := ep(ctx, payload)
		st.add(Event{"ev": "client_return", "res": Dump(res), "resType": fmt.Sprintf("%T", res), "err": errInfo(err)})
	}()
	return map[string]any{"id": scn.ID, "events": st.events}
}

// payloadType finds the payload parameter type of the Service interface method.
func payloadType(s *Service, method string) reflect.Type {
	m, ok := reflect.TypeOf(s.Stub).MethodByName(method)
	if !ok {
		Fatal("stub of %s has no method %s", s.Name, method)
	}
	// receiver, ctx, [payload], [stream]
	for i := 2; i < m.Type.NumIn(); i++ {
		t := m.Type.In(i)
		if t.Kind() == reflect.Interface && t.NumMethod() > 0 {
			continue // stream interface
		}
		return t
	}
	return nil
}

// Main is called by the generated glue after registering the services.
func Main() {
	in := flag.String("in", "", "scenarios (ndjson)")
	out := flag.String("out", "out.ndjson", "observations (ndjson)")
	par := flag.Int("parallel", 1, "number of goroutines running scenarios concurrently")
	rounds := flag.Int("rounds", 1, "repeat the scenario list this many times (parallel mode)")
	schedules := flag.String("schedules", "", "schedules to replay (ndjson): scenarios run K at a time, gated (sched.go)")
	flag.BoolVar(&mwLookup, "mwlookup", false, "mount a middleware calling Vars/ResolvePattern before routing")
	flag.Parse()
	theRT.mount()
	dumpMounts()
	var scns []*Scenario
	fh, err := os.Open(*in)
	if err != nil {
		Fatal("%v", err)
	}
	sc := bufio.NewScanner(fh)
	sc.Buffer(make([]byte, 1<<20), 1<<28)
	for sc.Scan() {
		if len(bytes.TrimSpace(sc.Bytes())) == 0 {
			continue
		}
		var s Scenario
		if err := json.Unmarshal(sc.Bytes(), &s); err != nil {
			Fatal("bad scenario: %v", err)
		}
		scns = append(scns, &s)
	}
	fh.Close()
	of, err := os.Create(*out)
	if err != nil {
		Fatal("%v", err)
	}
	w := bufio.NewWriterSize(of, 1<<20)
	var wmu sync.Mutex
	write := func(o map[string]any) {
		b, err := json.Marshal(o)
		if err != nil {
			Fatal("cannot marshal observation: %v", err)
		}
		wmu.Lock()
		w.Write(b)
		w.WriteByte('\n')
		wmu.Unlock()
	}
	start := time.Now()
	if *schedules != "" {
		byID := map[string]*Scenario{}
		for _, s := range scns {
			byID[s.ID] = s
		}
		for _, sch := range readSchedules(*schedules) {
			write(theRT.runSchedule(sch, byID))
		}
	} else if *par <= 1 {
		for _, s := range scns {
			write(theRT.runOne(s))
		}
	} else {
		var wg sync.WaitGroup
		ch := make(chan *Scenario)
		for g := 0; g < *par; g++ {
			wg.Add(1)
			go func() {
				defer wg.Done()
				for s := range ch {
					write(theRT.runOne(s))
				}
			}()
		}
		for r := 0; r < *rounds; r++ {
			for _, s := range scns {
				ch <- s
			}
		}
		close(ch)
		wg.Wait()
	}
	w.Flush()
	of.Close()
	fmt.Fprintf(os.Stderr, "runner: %d scenarios in %s\n", len(scns)**rounds, time.Since(start))
}
